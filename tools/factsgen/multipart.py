"""F8 (multipart part) — src/http/multipart_subscribe.rs -> coq/gen/MultipartGen.v

Translates
  * the four `static NAME: Bytes = Bytes::from_static(b"...")` constants into
    byte lists (`part_header_gen`, `eof_gen`, `crlf_gen`, `heartbeat_gen`), and
  * the order of the `yielder.yield_item(..)` calls in the three places of
    `create_multipart_mixed_stream` (response arm, heartbeat arm, after the
    loop) into `resp_chunks_gen json`, `tick_chunks_gen`, `end_chunks_gen`.
The control skeleton around them (fused input, `select!` with exactly the two
branches, `None => break`, `continue` on a serialisation error, timer re-armed
in the heartbeat arm) must keep the shape the hand-written model in
coq/theories/Multipart.v assumes; otherwise Unsupported is raised.
"""
import hashlib
import re

NAME = "multipart"
REL = "src/http/multipart_subscribe.rs"

ESC = {"n": 10, "r": 13, "t": 9, "0": 0, "\\": 92, "'": 39, '"': 34}
CONSTS = {"PART_HEADER": "part_header_gen", "EOF": "eof_gen", "CRLF": "crlf_gen", "HEARTBEAT": "heartbeat_gen"}


def _bytes_lit(facts, lit):
    out, i = [], 0
    while i < len(lit):
        c = lit[i]
        if c == "\\":
            n = lit[i + 1]
            if n == "x":
                out.append(int(lit[i + 2:i + 4], 16))
                i += 4
                continue
            if n not in ESC:
                raise facts.Unsupported(f"{REL}: escape \\{n} not in subset")
            out.append(ESC[n])
            i += 2
            continue
        if ord(c) > 126 or ord(c) < 32:
            raise facts.Unsupported(f"{REL}: non-printable byte in literal")
        out.append(ord(c))
        i += 1
    return out


def _norm(s):
    return re.sub(r"\s+", " ", re.sub(r"//[^\n]*", "", s)).strip()


def _yields(facts, block, where):
    """the yielded expressions of a block, in order, as Gallina terms"""
    out = []
    for m in re.finditer(r"yielder\s*\.\s*yield_item\s*\((.*?)\)\s*\.\s*await", block, re.S):
        e = _norm(m.group(1))
        mm = re.fullmatch(r"([A-Z_]+)\.clone\(\)", e)
        if mm and mm.group(1) in CONSTS:
            out.append(CONSTS[mm.group(1)])
        elif e == "writer.into_inner().freeze()":
            out.append("json")
        else:
            raise facts.Unsupported(f"{REL}: {where}: yielded expression not in subset: {e!r}")
    return out


def gen(facts):
    text = facts.read(REL)
    consts = {}
    for m in re.finditer(r"static\s+([A-Z_]+)\s*:\s*Bytes\s*=\s*Bytes::from_static\(\s*b\"((?:[^\"\\]|\\.)*)\"\s*,?\s*\)\s*;", text, re.S):
        consts[m.group(1)] = _bytes_lit(facts, m.group(2))
    for k in CONSTS:
        if k not in consts:
            raise facts.Unsupported(f"{REL}: static {k} not found in the expected form")
    body, l0, l1 = facts.span_after(text, r"pub fn create_multipart_mixed_stream[^{]*\{", REL)
    nb = _norm(body)
    # control skeleton the model assumes
    need = [
        (r"let mut input = input\.fuse\(\);", "input is fused"),
        (r"asynk_strim::stream_fn\(move \|mut yielder\| async move \{", "generator"),
        (r"let mut heartbeat_timer = pin!\(timer\.delay\(heartbeat_interval\)\.fuse\(\)\);", "timer armed once before the loop"),
        (r"loop \{ futures_util::select! \{ item = input\.next\(\) => \{ match item \{ Some\(resp\) => \{", "select! first branch"),
        (r"if serde_json::to_writer\(&mut writer, &resp\)\.is_err\(\) \{ continue; \}", "serialisation failure skips the response"),
        (r"None => break,", "end of input leaves the loop"),
        (r"_ = heartbeat_timer => \{ heartbeat_timer\.set\(timer\.delay\(heartbeat_interval\)\.fuse\(\)\);", "timer branch re-arms"),
    ]
    for pat, what in need:
        if not re.search(pat, nb):
            raise facts.Unsupported(f"{REL}: create_multipart_mixed_stream: shape changed ({what})")
    if len(re.findall(r"=>", re.sub(r"Some\(resp\) =>|None =>", "", nb[nb.index("select!"):]))) != 2:
        raise facts.Unsupported(f"{REL}: select! no longer has exactly two branches")
    i_some = nb.index("Some(resp) =>")
    i_none = nb.index("None => break")
    i_timer = nb.index("_ = heartbeat_timer =>")
    # end of the loop: the select! block closes, then the loop closes
    m_end = re.search(r"\} \} \} yielder", nb[i_timer:])
    if not m_end:
        raise facts.Unsupported(f"{REL}: cannot find the end of the loop")
    i_after = i_timer + m_end.start()
    if not (i_some < i_none < i_timer < i_after):
        raise facts.Unsupported(f"{REL}: arms out of the expected order")
    resp = _yields(facts, nb[i_some:i_none], "response arm")
    if _yields(facts, nb[:i_some], "before the loop") or _yields(facts, nb[i_none:i_timer], "None arm"):
        raise facts.Unsupported(f"{REL}: unexpected yield outside the three known places")
    tick = _yields(facts, nb[i_timer:i_after], "heartbeat arm")
    end = _yields(facts, nb[i_after:], "after the loop")
    if resp.count("json") != 1 or "json" in tick or "json" in end:
        raise facts.Unsupported(f"{REL}: the serialised response must be yielded exactly once, in the response arm")
    span = text[text.index("static PART_HEADER"):text.index("/// Create a stream")] + body
    h = hashlib.sha256(span.encode()).hexdigest()
    out = (f"(* GENERATED by tools/factsgen/multipart.py from {REL} (statics + lines {l0}-{l1})\n"
           f"   sha256(span) = {h}\n"
           f"   Do not edit: regenerated from /repo on every run. *)\n"
           "From Coq Require Import NArith List.\nImport ListNotations.\nOpen Scope N_scope.\n\n")
    for k, g in CONSTS.items():
        out += f"Definition {g} : list N := [{'; '.join(str(b) for b in consts[k])}].\n"
    out += "\n(* chunks yielded per select! branch, in order *)\n"
    out += f"Definition resp_chunks_gen (json : list N) : list (list N) := [{'; '.join(resp)}].\n"
    out += f"Definition tick_chunks_gen : list (list N) := [{'; '.join(tick)}].\n"
    out += f"Definition end_chunks_gen : list (list N) := [{'; '.join(end)}].\n"
    return facts.write_out("MultipartGen.v", out)

"""F5 (SDL part) — src/registry/export_sdl.rs -> coq/gen/SdlEscGen.v

Translates
  * the arms of `escape_string` (the escaper of deprecation reasons):
        'c' => Some("..."), ... , _ => None
    and checks the frame around it (loop over chars, write the replacement or
    the character itself);
  * the two `replace` calls of `write_description` and its two output formats:
        single line:  description.replace('"', r#"\\""#)  written as {tabs}"{description}"
        block:        description.replace('\\n', &format!("\\n{tabs}"))
                      written as {tabs}\"\"\"\\n{tabs}{description}\\n{tabs}\"\"\"
    together with the condition that selects the single-line form;
  * the format of `write_deprecated`.
"""
import hashlib
import re

NAME = "sdlesc"

ESC = {"n": 10, "r": 13, "t": 9, "0": 0, "\\": 92, "'": 39, '"': 34}


def _norm(s):
    return re.sub(r"\s+", " ", re.sub(r"//[^\n]*", "", s)).strip()


def _unescape(facts, lit, rel):
    out = []
    i = 0
    while i < len(lit):
        c = lit[i]
        if c == "\\":
            d = lit[i + 1]
            if d == "x":
                out.append(int(lit[i + 2:i + 4], 16))
                i += 4
                continue
            if d == "u":
                m = re.match(r"\{([0-9a-fA-F_]+)\}", lit[i + 2:])
                if not m:
                    raise facts.Unsupported(f"{rel}: bad \\u escape in {lit!r}")
                out.append(int(m.group(1).replace("_", ""), 16))
                i += 2 + m.end()
                continue
            if d not in ESC:
                raise facts.Unsupported(f"{rel}: escape \\{d} not in subset")
            out.append(ESC[d])
            i += 2
        else:
            out.append(ord(c))
            i += 1
    return out


def _glist(cps):
    return "[" + "; ".join(str(c) for c in cps) + "]"


def gen(facts):
    rel = "src/registry/export_sdl.rs"
    text = facts.read(rel)
    # ---------------------------------------------------------- escape_string
    body, l0, l1 = facts.span_after(text, r"fn escape_string\(s: &str\) -> String \{", rel)
    mm = re.search(r"let ec = match c\s*\{", body)
    if not mm:
        raise facts.Unsupported(f"{rel}: escape_string: no `let ec = match c {{`")
    mbody, _, _ = facts.span_after(body, r"let ec = match c\s*\{", rel)
    k1 = body.index(mbody, mm.end()) + len(mbody) + 1
    frame = _norm(body[:mm.start()] + "MATCH" + body[k1:])
    # frame: the replacement is written, otherwise (optionally) a control character is written
    # through a \\u format, otherwise the character itself
    fm = re.fullmatch(
        r"let mut res = String::new\(\); for c in s\.chars\(\) \{ MATCH; match ec \{ Some\(ec\) => \{ res\.write_str\(ec\)\.ok\(\); \} "
        r"(?:None if c\.is_control\(\) => \{ write!\(res, \"((?:\\.|[^\"\\])*)\", c as u32\)\.ok\(\); \} )?"
        r"None => \{ res\.write_char\(c\)\.ok\(\); \} \} \} res", frame)
    if not fm:
        raise facts.Unsupported(f"{rel}: escape_string: code around the match left the modelled shape: {frame!r}")
    ctrl = None
    if fm.group(1) is not None:
        f2 = re.fullmatch(r"((?:\\.|[^{}\\])*)\{:(0?)(\d*)([xX]?)\}", fm.group(1))
        if not f2:
            raise facts.Unsupported(f"{rel}: escape_string: format string {fm.group(1)!r} not in subset")
        if f2.group(2) != "0" and int(f2.group(3) or "0") > 0:
            raise facts.Unsupported(f"{rel}: escape_string: space padding not in subset")
        ctrl = (_unescape(facts, f2.group(1), rel), 16 if f2.group(4) else 10, int(f2.group(3) or "0"), f2.group(4) == "X")
    table = []
    default = False
    for arm in [a.strip() for a in re.sub(r"//[^\n]*", "", mbody).split("\n") if a.strip()]:
        if default:
            raise facts.Unsupported(f"{rel}: escape_string: arm after the default arm: {arm!r}")
        m = re.fullmatch(r"('(?:\\.[0-9a-fA-F]{0,2}|[^\\'])')\s*=>\s*Some\(\"((?:\\.|[^\"\\])*)\"\),", arm)
        if m:
            cp = _unescape(facts, m.group(1)[1:-1], rel)
            if len(cp) != 1:
                raise facts.Unsupported(f"{rel}: escape_string: pattern {m.group(1)} is not one character")
            table.append((cp[0], _unescape(facts, m.group(2), rel)))
            continue
        if re.fullmatch(r"_\s*=>\s*None,", arm):
            default = True
            continue
        raise facts.Unsupported(f"{rel}: escape_string: arm not in subset: {arm!r}")
    if not default:
        raise facts.Unsupported(f"{rel}: escape_string: no default arm")
    # ------------------------------------------------------- write_description
    dbody, d0, d1 = facts.span_after(text, r"pub\(super\) fn write_description\(\s*sdl: &mut String,\s*options: &SDLExportOptions,\s*level: usize,\s*description: &str,\s*\) \{", rel)
    want_d = ("let tabs = tab(options).repeat(level); "
              "if options.prefer_single_line_descriptions && !description.contains('\\n') { "
              "let description = description.replace('\"', r#\"\\\"\"#); "
              "writeln!(sdl, \"{tabs}\\\"{description}\\\"\").ok(); } else { "
              "let description = description.replace('\\n', &format!(\"\\n{tabs}\")); "
              "writeln!(sdl, \"{tabs}\\\"\\\"\\\"\\n{tabs}{description}\\n{tabs}\\\"\\\"\\\"\").ok(); }")
    if _norm(dbody) != want_d:
        raise facts.Unsupported(f"{rel}: write_description left the modelled shape: {_norm(dbody)!r}")
    # -------------------------------------------------------- write_deprecated
    pbody, p0, p1 = facts.span_after(text, r"fn write_deprecated\(sdl: &mut String, deprecation: &Deprecation\) \{", rel)
    want_p = ("if let Deprecation::Deprecated { reason } = deprecation { let _ = match reason { "
              "Some(reason) => write!(sdl, \" @deprecated(reason: \\\"{}\\\")\", escape_string(reason)).ok(), "
              "None => write!(sdl, \" @deprecated\").ok(), }; }")
    if _norm(pbody) != want_p:
        raise facts.Unsupported(f"{rel}: write_deprecated left the modelled shape: {_norm(pbody)!r}")

    out = facts.header("SdlEscGen", rel, l0, l1, body).replace("Open Scope Z_scope.", "Open Scope N_scope.")
    out += "(* arms of escape_string, in source order: character -> replacement text; every other character is copied *)\n"
    out += "Definition sdl_escape_table_gen : list (N * list N) :=\n  [" + ";\n   ".join(f"({c}, {_glist(r)})" for c, r in table) + "].\n\n"
    out += "(* guarded arm `None if c.is_control() => write!(res, FORMAT, c as u32)` (absent: the character is copied) *)\n"
    out += f"Definition sdl_escape_ctrl_gen : bool := {'true' if ctrl else 'false'}.\n"
    cp_, cr_, cw_, cu_ = ctrl if ctrl else ([], 10, 0, False)
    out += f"Definition sdl_escape_u_prefix_gen : list N := {_glist(cp_)}.\n"
    out += f"Definition sdl_escape_u_radix_gen : N := {cr_}.\n"
    out += f"Definition sdl_escape_u_width_gen : nat := {cw_}.\n"
    out += f"Definition sdl_escape_u_upper_gen : bool := {'true' if cu_ else 'false'}.\n\n"
    out += f"(* write_description lines {d0}-{d1} sha256 {hashlib.sha256(dbody.encode()).hexdigest()[:16]} *)\n"
    out += "(* single-line form: chosen when the option is set and the text holds no [desc_single_excl_gen]; *)\n"
    out += "(* [desc_single_from_gen] is replaced by [desc_single_to_gen]; delimiter [desc_single_delim_gen] *)\n"
    out += "Definition desc_single_excl_gen : N := 10.\n"
    out += "Definition desc_single_from_gen : N := 34.\n"
    out += f"Definition desc_single_to_gen : list N := {_glist([92, 34])}.\n"
    out += f"Definition desc_single_delim_gen : list N := {_glist([34])}.\n"
    out += "(* block form: [desc_block_from_gen] is replaced by itself followed by the indentation; delimiter *)\n"
    out += "Definition desc_block_from_gen : N := 10.\n"
    out += f"Definition desc_block_delim_gen : list N := {_glist([34, 34, 34])}.\n\n"
    out += f"(* write_deprecated lines {p0}-{p1} sha256 {hashlib.sha256(pbody.encode()).hexdigest()[:16]} *)\n"
    out += f"Definition depr_bare_gen : list N := {_glist([ord(c) for c in ' @deprecated'])}.\n"
    out += f"Definition depr_open_gen : list N := {_glist([ord(c) for c in ' @deprecated(reason: ' + chr(34)])}.\n"
    out += f"Definition depr_close_gen : list N := {_glist([34, 41])}.\n"
    return facts.write_out("SdlEscGen.v", out)

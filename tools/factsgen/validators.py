"""F10 — src/validators/*.rs and derive/src/validators.rs -> coq/gen/ValidatorGen.v

Reads, per built-in validator function, the shape of its acceptance test:
  * numeric (maximum, minimum): `if value.as_() <op> n {`           -> comparison operator, use of as_()
  * multiple_of: `let value = value.as_();`
                 `if [!value.is_zero() &&] value % n == N::zero() {` -> zero guard present?, as_()
  * length (max_length, min_length, chars_*): `if value.as_ref().len() <op> len {`
                 or `value.as_ref().chars().count() <op> len`        -> measure + operator
  * items (max_items, min_items): `if value.deref().len() <op> len {`
  * regex: `if let Ok(true) = Regex::new(regex).map(|re| re.is_match(value.as_ref())) {`
and from derive/src/validators.rs:
  * Number::from_value: Lit::Int -> base10_parse::<i64>, Lit::Float -> base10_parse::<f64>
  * Number::to_tokens:  `#n as i64` / `#n as f64`
  * create_validators: the order in which validators are pushed and to which group
    (list_validators = on the raw list, elem_validators = on the value / every item),
    and the shape of the three emitted code blocks (as_raw_value skipping of None,
    `for __item in value` in list mode).
Anything else raises Unsupported (reported as a broken obligation).
"""
import hashlib
import re

NAME = "validators"

CMP = {"<=": "CLe", ">=": "CGe", "<": "CLt", ">": "CGt", "==": "CEq", "!=": "CNe"}
KINDS = ["multiple_of", "maximum", "minimum", "max_length", "min_length", "chars_max_length",
         "chars_min_length", "regex", "max_items", "min_items"]
TAG = {k: i for i, k in enumerate(KINDS)}


def _fn_body(facts, name):
    rel = f"src/validators/{name}.rs"
    text = facts.read(rel)
    body, l0, l1 = facts.span_after(text, r"pub fn " + name + r"<", rel)
    # span_after finds the first '{' after the match: the function body (the
    # signature has no braces).  Sanity: the body must end in the Ok/Err if.
    if "Ok(())" not in body or "Err(" not in body:
        raise facts.Unsupported(f"{rel}: body of {name} does not have the Ok(())/Err shape")
    return rel, body, l0, l1


def _cond(facts, rel, body):
    """The condition of the single `if <cond> { Ok(()) } else { Err(..) }`."""
    m = re.search(r"\bif\s+(.*?)\s*\{\s*Ok\(\(\)\)\s*\}\s*else\s*\{\s*Err\(", body, re.S)
    if not m:
        raise facts.Unsupported(f"{rel}: no `if C {{ Ok(()) }} else {{ Err(..) }}`")
    code = re.sub(r'"(?:[^"\\]|\\.)*"', '""', body)   # keywords inside message strings do not count
    if len(re.findall(r"\bif\b", code)) != 1 or re.search(r"\b(return|match|while|for|loop)\b", code):
        raise facts.Unsupported(f"{rel}: more control flow than one if/else")
    return " ".join(m.group(1).split())


# Hand-written table of the shapes last seen in the source.  When a span leaves
# the supported subset the generator still writes ValidatorGen.v with these
# entries for the affected validator (so that the model stays buildable and the
# correspondence run can exhibit a concrete input on which the changed code
# differs), and then raises Unsupported — the obligation is reported as broken.
DEFAULTS = {
    "maximum": ["Definition maximum_cmp_gen : cmp := CLe."],
    "minimum": ["Definition minimum_cmp_gen : cmp := CGe."],
    "multiple_of": ["Definition multiple_of_zero_guard_gen : bool := true."],
    "max_length": ["Definition max_length_measure_gen : measure := MBytes.", "Definition max_length_cmp_gen : cmp := CLe."],
    "min_length": ["Definition min_length_measure_gen : measure := MBytes.", "Definition min_length_cmp_gen : cmp := CGe."],
    "chars_max_length": ["Definition chars_max_length_measure_gen : measure := MChars.", "Definition chars_max_length_cmp_gen : cmp := CLe."],
    "chars_min_length": ["Definition chars_min_length_measure_gen : measure := MChars.", "Definition chars_min_length_cmp_gen : cmp := CGe."],
    "max_items": ["Definition max_items_cmp_gen : cmp := CLe."],
    "min_items": ["Definition min_items_cmp_gen : cmp := CGe."],
    "regex": ["Definition regex_requires_compile_gen : bool := true."],
    "number": ["Definition int_bound_type_gen : btype := TI64.", "Definition float_bound_type_gen : btype := TF64.",
               "Definition bound_literals_nonnegative_gen : bool := true."],
    "order": ["Definition list_order_gen : list N := [8%N; 9%N].",
              "Definition elem_order_gen : list N := [0%N; 1%N; 2%N; 3%N; 4%N; 5%N; 6%N; 7%N]."],
}


def gen(facts):
    out = []
    spans = []
    errors = []

    def section(key, fn):
        try:
            lines, sp = fn()
            out.extend(lines)
            spans.extend(sp)
        except facts.Unsupported as e:
            errors.append(str(e))
            out.append(f"(* FALLBACK (source span not in the supported subset: {str(e)[:200].replace('*)', '* )')}) *)")
            out.extend(DEFAULTS[key])
        except Exception as e:  # unexpected source shape
            errors.append(f"{key}: {type(e).__name__}: {e}")
            out.append(f"(* FALLBACK ({key}: {type(e).__name__}) *)")
            out.extend(DEFAULTS[key])

    def numeric(name):
        def f():
            rel, body, l0, l1 = _fn_body(facts, name)
            c = _cond(facts, rel, body)
            m = re.fullmatch(r"value\.as_\(\)\s*(<=|>=|<|>|==|!=)\s*n", c)
            if not m:
                raise facts.Unsupported(f"{rel}: condition {c!r} is not `value.as_() <op> n`")
            if not re.search(r"T:\s*AsPrimitive<N>\s*\+\s*InputType", facts.read(rel)):
                raise facts.Unsupported(f"{rel}: bound `T: AsPrimitive<N> + InputType` not found")
            return [f"Definition {name}_cmp_gen : cmp := {CMP[m.group(1)]}."], [(rel, l0, l1, body)]
        return f

    def multiple_of():
        rel, body, l0, l1 = _fn_body(facts, "multiple_of")
        if not re.search(r"let\s+value\s*=\s*value\.as_\(\)\s*;", body):
            raise facts.Unsupported(f"{rel}: `let value = value.as_();` not found")
        c = _cond(facts, rel, body)
        if re.fullmatch(r"!value\.is_zero\(\)\s*&&\s*value % n == N::zero\(\)", c):
            guard = "true"
        elif re.fullmatch(r"value % n == N::zero\(\)", c):
            guard = "false"
        else:
            raise facts.Unsupported(f"{rel}: condition {c!r} not in subset")
        return [f"Definition multiple_of_zero_guard_gen : bool := {guard}."], [(rel, l0, l1, body)]

    def length(name):
        def f():
            rel, body, l0, l1 = _fn_body(facts, name)
            c = _cond(facts, rel, body)
            m = re.fullmatch(r"value\.as_ref\(\)\.(len\(\)|chars\(\)\.count\(\))\s*(<=|>=|<|>|==|!=)\s*len", c)
            if not m:
                raise facts.Unsupported(f"{rel}: condition {c!r} not in subset")
            if not re.search(r"T:\s*AsRef<str>\s*\+\s*InputType", facts.read(rel)):
                raise facts.Unsupported(f"{rel}: bound `T: AsRef<str> + InputType` not found")
            meas = "MBytes" if m.group(1) == "len()" else "MChars"
            return ([f"Definition {name}_measure_gen : measure := {meas}.",
                     f"Definition {name}_cmp_gen : cmp := {CMP[m.group(2)]}."], [(rel, l0, l1, body)])
        return f

    def items(name):
        def f():
            rel, body, l0, l1 = _fn_body(facts, name)
            c = _cond(facts, rel, body)
            m = re.fullmatch(r"value\.deref\(\)\.len\(\)\s*(<=|>=|<|>|==|!=)\s*len", c)
            if not m:
                raise facts.Unsupported(f"{rel}: condition {c!r} not in subset")
            return [f"Definition {name}_cmp_gen : cmp := {CMP[m.group(1)]}."], [(rel, l0, l1, body)]
        return f

    def regex():
        rel, body, l0, l1 = _fn_body(facts, "regex")
        c = _cond(facts, rel, body)
        if c != "let Ok(true) = Regex::new(regex).map(|re| re.is_match(value.as_ref()))":
            raise facts.Unsupported(f"{rel}: condition {c!r} not in subset")
        return (["(* regex: accepted iff the pattern compiles and is_match is true *)",
                 "Definition regex_requires_compile_gen : bool := true."], [(rel, l0, l1, body)])

    def number():
        rel = "derive/src/validators.rs"
        text = facts.read(rel)
        body, l0, l1 = facts.span_after(text, r"impl FromMeta for Number \{", rel)
        if not (re.search(r"Lit::Int\(n\)\s*=>\s*Ok\(Number::I64\(n\.base10_parse::<i64>\(\)\?\)\)", body)
                and re.search(r"Lit::Float\(n\)\s*=>\s*Ok\(Number::F64\(n\.base10_parse::<f64>\(\)\?\)\)", body)):
            raise facts.Unsupported(f"{rel}: Number::from_value arms not in subset")
        if "from_expr" in body or "Unary" in body:
            raise facts.Unsupported(f"{rel}: Number now accepts more than plain literals (negative bounds?)")
        sp = [(rel, l0, l1, body)]
        body, l0, l1 = facts.span_after(text, r"impl ToTokens for Number \{", rel)
        if not (re.search(r"Number::F64\(n\)\s*=>\s*tokens\.extend\(quote!\(#n as f64\)\)", body)
                and re.search(r"Number::I64\(n\)\s*=>\s*tokens\.extend\(quote!\(#n as i64\)\)", body)):
            raise facts.Unsupported(f"{rel}: Number::to_tokens arms not in subset")
        sp.append((rel, l0, l1, body))
        return (["(* integer literal bound -> i64 (non-negative: a plain literal), float literal bound -> f64 *)"]
                + DEFAULTS["number"], sp)

    def order():
        rel = "derive/src/validators.rs"
        text = facts.read(rel)
        body, l0, l1 = facts.span_after(text, r"pub fn create_validators\(", rel)
        pushes = re.findall(
            r"if let Some\((?:n|re)\) = &self\.(\w+) \{\s*(list|elem)_validators\.push\(quote! \{\s*"
            r"#crate_name::validators::(\w+)\(__raw_value, #(?:n|re)\)\s*\}\);\s*\}", body)
        if len(pushes) != len(KINDS):
            raise facts.Unsupported(f"{rel}: expected {len(KINDS)} validator pushes, found {len(pushes)}")
        order_list, order_elem = [], []
        for field, grp, fn in pushes:
            if field != fn or fn not in TAG:
                raise facts.Unsupported(f"{rel}: push of {field} calls validators::{fn}")
            (order_list if grp == "list" else order_elem).append(fn)
        if sorted(order_list + order_elem) != sorted(KINDS):
            raise facts.Unsupported(f"{rel}: validator set changed: {order_list + order_elem}")
        norm = " ".join(body.split())
        i1, i2 = norm.find(BLK_LIST), norm.find(BLK_ELEM)
        if i1 < 0 or i2 < 0 or not i1 < i2:
            raise facts.Unsupported(f"{rel}: the emitted list/elem validator blocks left the known shape")
        return (["(* create_validators: list-level validators run first (on the raw list, skipped for None),",
                 "   then element-level validators on the raw value, or on every non-None item in list mode;",
                 "   each `?` returns at the first error.  Tags: " + ", ".join(f"{TAG[k]}={k}" for k in KINDS) + " *)",
                 "Definition list_order_gen : list N := [" + "; ".join(f"{TAG[k]}%N" for k in order_list) + "].",
                 "Definition elem_order_gen : list N := [" + "; ".join(f"{TAG[k]}%N" for k in order_elem) + "]."],
                [(rel, l0, l1, body)])

    section("maximum", numeric("maximum"))
    section("minimum", numeric("minimum"))
    section("multiple_of", multiple_of)
    for name in ("max_length", "min_length", "chars_max_length", "chars_min_length"):
        section(name, length(name))
    for name in ("max_items", "min_items"):
        section(name, items(name))
    section("regex", regex)
    section("number", number)
    section("order", order)

    head = "(* GENERATED by tools/factsgen/validators.py from\n"
    for rel, l0, l1, b in spans:
        head += f"     {rel} lines {l0}-{l1} sha256 {hashlib.sha256(b.encode()).hexdigest()[:16]}\n"
    head += "   Do not edit: regenerated from /repo on every run. *)\n"
    head += "From Coq Require Import ZArith NArith Bool List.\nImport ListNotations.\n\n"
    head += "Inductive cmp := CLe | CGe | CLt | CGt | CEq | CNe.\n"
    head += "Inductive measure := MBytes | MChars.\n"
    head += "Inductive btype := TI64 | TF64.\n\n"
    path = facts.write_out("ValidatorGen.v", head + "\n".join(out) + "\n")
    if errors:
        raise facts.Unsupported("; ".join(errors) + " (ValidatorGen.v written with the last known shape for these entries)")
    return path


BLK_LIST = ("if !list_validators.is_empty() { codes.push(quote! { if let ::std::option::Option::Some(__raw_value) = "
            "#crate_name::InputType::as_raw_value(#value) { #(#list_validators #map_err ?;)* } }); }")
BLK_ELEM = ("if !elem_validators.is_empty() { if self.list { codes.push(quote! { if let ::std::option::Option::Some(value) = "
            "#crate_name::InputType::as_raw_value(#value) { for __item in value { if let ::std::option::Option::Some(__raw_value) = "
            "#crate_name::InputType::as_raw_value(__item) { #(#elem_validators #map_err ?;)* } } } }); } else { codes.push(quote! { "
            "if let ::std::option::Option::Some(__raw_value) = #crate_name::InputType::as_raw_value(#value) { "
            "#(#elem_validators #map_err ?;)* } }); } }")

"""F12 — serde field tables of the two request decoders.

  src/http/mod.rs   fn parse_query_string { struct RequestSerde {..} }   (GET query string)
  src/request.rs    pub struct Request {..}                              (JSON body / batch / multipart operations)

For each struct: the wire keys of the four transported members (serde
`rename`, `alias`, struct-level `rename_all`), whether a missing member is
tolerated (`default` or an `Option<_>` type), the declaration order of the
non-skipped members (serde's positional/sequence form) and the member types.
Anything outside this shape raises Unsupported.
"""
import hashlib
import re

NAME = "requestserde"

WANT = ["query", "operation_name", "variables", "extensions"]
TYPES = {
    "request": {"query": "String", "operation_name": "Option<String>", "variables": "Variables", "extensions": "Extensions"},
    "get": {"query": "String", "operation_name": "Option<String>", "variables": "Option<String>", "extensions": "Option<String>"},
}


def _camel(s):
    parts = s.split("_")
    return parts[0] + "".join(p[:1].upper() + p[1:] for p in parts[1:])


def _rename_all(style, s):
    if style is None:
        return s
    if style == "camelCase":
        return _camel(s)
    if style == "snake_case":
        return s
    if style == "PascalCase":
        c = _camel(s)
        return c[:1].upper() + c[1:]
    if style == "SCREAMING_SNAKE_CASE":
        return s.upper()
    if style == "kebab-case":
        return s.replace("_", "-")
    if style == "lowercase":
        return s
    if style == "UPPERCASE":
        return s.upper()
    raise ValueError(style)


def _serde_items(attr_text, facts, where):
    """`default, rename = "x", alias = "y"` -> list of (name, value|None)."""
    items = []
    for part in re.findall(r'([a-z_]+)\s*(?:=\s*"([^"]*)")?\s*(?:,|$)', attr_text.strip()):
        items.append((part[0], part[1] if part[1] != "" or '= ""' in attr_text else None))
    rebuilt = ", ".join(k if v is None else f'{k} = "{v}"' for k, v in items)
    if re.sub(r"\s+", "", rebuilt) != re.sub(r"\s+", "", attr_text.strip().rstrip(",")):
        raise facts.Unsupported(f"{where}: serde attribute not in subset: {attr_text!r}")
    return items


def _fields(body, facts, where):
    """-> list of dict(name, ty, attrs[(k,v)]) in declaration order."""
    # drop doc comments and ordinary comments
    src = re.sub(r"//[^\n]*", "", body)
    out = []
    pos = 0
    pending = []
    tok = re.compile(r"\s*(#\[(?P<attr>[^\]]*)\]|(?P<vis>pub(?:\([a-z]+\))?\s+)?(?P<name>[a-z_][a-z0-9_]*)\s*:\s*(?P<ty>[^,\n]+),)", re.S)
    while True:
        m = tok.match(src, pos)
        if not m:
            if src[pos:].strip():
                raise facts.Unsupported(f"{where}: struct body not in subset near {src[pos:pos + 60]!r}")
            break
        pos = m.end()
        if m.group("attr") is not None:
            a = m.group("attr").strip()
            sm = re.fullmatch(r"serde\((.*)\)", a, re.S)
            if sm:
                pending += _serde_items(sm.group(1), facts, where)
            elif a.startswith(("doc", "allow", "cfg_attr")):
                pass
            else:
                raise facts.Unsupported(f"{where}: attribute not in subset: #[{a}]")
        else:
            out.append({"name": m.group("name"), "ty": re.sub(r"\s+", "", m.group("ty")), "attrs": pending})
            pending = []
    return out


def _table(kind, fields, rename_all, facts, where):
    rows = {}
    order = []
    for f in fields:
        keys = dict()
        a = f["attrs"]
        names = [k for k, _ in a]
        for k in names:
            if k not in ("default", "rename", "alias", "skip"):
                raise facts.Unsupported(f"{where}: serde({k}) on `{f['name']}` not in subset")
        if "skip" in names:
            if f["name"] in WANT:
                raise facts.Unsupported(f"{where}: transported member `{f['name']}` is skipped")
            continue
        if f["name"] not in WANT:
            raise facts.Unsupported(f"{where}: unexpected deserialised member `{f['name']}`")
        ren = [v for k, v in a if k == "rename"]
        if len(ren) > 1 or any(v is None for v in ren):
            raise facts.Unsupported(f"{where}: rename on `{f['name']}` not in subset")
        if any(v is None for k, v in a if k == "alias") or any(v is not None for k, v in a if k == "default"):
            raise facts.Unsupported(f"{where}: alias/default form on `{f['name']}` not in subset")
        key = ren[0] if ren else _rename_all(rename_all, f["name"])
        keys = [key] + [v for k, v in a if k == "alias"]
        if f["ty"] != TYPES[kind][f["name"]]:
            raise facts.Unsupported(f"{where}: member `{f['name']}` has type {f['ty']}, expected {TYPES[kind][f['name']]}")
        tolerant = ("default" in names) or f["ty"].startswith("Option<")
        # in serde's positional form only an explicit `default` supplies a missing element
        rows[f["name"]] = (keys, tolerant, "default" in names)
        order.append(f["name"])
    if order != WANT:
        raise facts.Unsupported(f"{where}: deserialised members are {order}, expected {WANT} in this order")
    return rows


def _g_str(s):
    return "[" + ";".join(str(ord(c)) for c in s) + "]%N"


def _emit(prefix, rows):
    t = ""
    for f in WANT:
        keys, tolerant, dflt = rows[f]
        short = {"query": "query", "operation_name": "opname", "variables": "variables", "extensions": "extensions"}[f]
        t += f"(* {f}: keys {keys}, missing tolerated: {tolerant}, serde(default): {dflt} *)\n"
        t += f"Definition {prefix}_keys_{short} : list (list N) := [" + "; ".join(_g_str(k) for k in keys) + "].\n"
        t += f"Definition {prefix}_missing_ok_{short} : bool := {'true' if tolerant else 'false'}.\n"
        t += f"Definition {prefix}_seq_default_{short} : bool := {'true' if dflt else 'false'}.\n"
    return t + "\n"


def gen(facts):
    rel1 = "src/http/mod.rs"
    t1 = re.sub(r"//[^\n]*", "", facts.read(rel1))
    fn_body, f0, f1 = facts.span_after(t1, r"pub fn parse_query_string\(input: &str\) -> Result<Request, ParseRequestError> \{", rel1)
    m = re.search(r"((?:#\[[^\]]*\]\s*)*)struct RequestSerde \{", fn_body)
    if not m:
        raise facts.Unsupported(f"{rel1}: struct RequestSerde not found in parse_query_string")
    heads = m.group(1)
    if "Deserialize" not in heads:
        raise facts.Unsupported(f"{rel1}: RequestSerde does not derive Deserialize")
    ra = re.search(r'serde\(\s*rename_all\s*=\s*"([^"]+)"\s*\)', heads)
    if "serde(" in heads and not ra:
        raise facts.Unsupported(f"{rel1}: struct-level serde attribute not in subset: {heads!r}")
    sbody, s0, s1 = facts.span_after(fn_body, r"struct RequestSerde \{", rel1)
    get_rows = _table("get", _fields(sbody, facts, rel1 + ":RequestSerde"), ra.group(1) if ra else None, facts, rel1 + ":RequestSerde")
    # the glue after the struct: which members feed which Request members, and JSON decoding
    glue = fn_body
    for pat, what in [
        (r"serde_urlencoded::from_str\(input\)", "urlencoded decoding of the whole input"),
        (r"request\s*\.variables\s*\.map\(\|data\| serde_json::from_str\(&data\)\)\s*\.transpose\(\)\s*\.map_err\([^;]*\)\?\s*\.unwrap_or_default\(\)", "variables JSON-decoded, absent -> default"),
        (r"request\s*\.extensions\s*\.map\(\|data\| serde_json::from_str\(&data\)\)\s*\.transpose\(\)\s*\.map_err\([^;]*\)\?\s*\.unwrap_or_default\(\)", "extensions JSON-decoded, absent -> default"),
        (r"Ok\(Request \{\s*operation_name: request\.operation_name,\s*variables,\s*extensions,\s*\.\.Request::new\(request\.query\)\s*\}\)", "result construction"),
    ]:
        if not re.search(pat, glue, re.S):
            raise facts.Unsupported(f"{rel1}: parse_query_string: {what} not in the expected shape")

    rel2 = "src/request.rs"
    t2 = re.sub(r"//[^\n]*", "", facts.read(rel2))   # comments dropped, line structure kept
    m = re.search(r"((?:#\[[^\]]*\]\s*)*)pub struct Request \{", t2)
    if not m:
        raise facts.Unsupported(f"{rel2}: pub struct Request not found")
    heads = m.group(1)
    if not re.search(r"derive\([^)]*\bDeserialize\b", heads):
        raise facts.Unsupported(f"{rel2}: Request does not derive Deserialize")
    serde_heads = re.findall(r"#\[serde\(([^\]]*)\)\]", heads)
    ra2 = None
    for h in serde_heads:
        mm = re.fullmatch(r'\s*rename_all\s*=\s*"([^"]+)"\s*', h)
        if not mm:
            raise facts.Unsupported(f"{rel2}: struct-level serde attribute not in subset: {h!r}")
        ra2 = mm.group(1)
    rbody, r0, r1 = facts.span_after(t2, r"pub struct Request \{", rel2)
    req_rows = _table("request", _fields(rbody, facts, rel2 + ":Request"), ra2, facts, rel2 + ":Request")

    # BatchRequest: untagged, Single before Batch, Batch through deserialize_non_empty_vec
    bm = re.search(r"((?:#\[[^\]]*\]\s*)*)pub enum BatchRequest \{", t2)
    if not bm or "serde(untagged)" not in bm.group(1):
        raise facts.Unsupported(f"{rel2}: BatchRequest is not #[serde(untagged)]")
    bbody, b0, b1 = facts.span_after(t2, r"pub enum BatchRequest \{", rel2)
    bb = re.sub(r"//[^\n]*", "", bbody)
    if not re.fullmatch(r'\s*Single\(Request\),\s*#\[serde\(deserialize_with = "deserialize_non_empty_vec"\)\]\s*Batch\(Vec<Request>\),\s*', bb):
        raise facts.Unsupported(f"{rel2}: BatchRequest variants not in the expected shape")

    span = sbody + rbody + bbody
    out = (f"(* GENERATED by tools/factsgen/requestserde.py from\n"
           f"     {rel1} (RequestSerde inside parse_query_string, fn lines {f0}-{f1})\n"
           f"     {rel2} (Request lines {r0}-{r1}, BatchRequest lines {b0}-{b1})\n"
           f"   sha256(spans) = {hashlib.sha256(span.encode()).hexdigest()}\n"
           f"   Do not edit: regenerated from /repo on every run. *)\n"
           "From Coq Require Import NArith List.\nImport ListNotations.\n\n"
           "(* JSON body / batch element / multipart operations part: struct Request *)\n"
           + _emit("req", req_rows) +
           "(* GET query string: struct RequestSerde in parse_query_string *)\n"
           + _emit("get", get_rows) +
           "(* BatchRequest: untagged; variant order Single, Batch(non-empty vec) *)\n"
           "Definition batch_untagged_single_first : bool := true.\n")
    return facts.write_out("RequestSerdeGen.v", out)

"""C34 — templates/graphiql_source.jinja -> coq/gen/TemplateGen.v

Translates the askama template into a Gallina syntax tree

  tnode ::= TLit text | TVar var ctx | TIfSome var then else | TFor var body

and computes, with a small HTML/JS context scanner, the syntactic context of
every `{{ var }}` hole:

  CtxTitle   text of <title> (RCDATA), the hole is directly followed by </title>
  CtxJsSq    inside <script>, directly enclosed in single quotes: '{{ v }}'
  CtxJsonDq  inside <script>, somewhere inside a double-quoted JSON/JS string

Anything else (a hole in an attribute, in raw script code, in <style>, filters,
whitespace-control markers, other block tags) raises Unsupported.  The struct
fields of GraphiQLSource and which of them are Option / map typed are read from
src/http/graphiql_source.rs and checked against the template's use.

Baseline: `python3 tools/facts.py --save-baseline` keeps a committed copy of the
generated file in coq/gen.baseline/TemplateGen.v (its header carries the sha256
of the .jinja it was made from).  When gen() raises Unsupported the rejection is
reported as a broken obligation and run_standard puts that copy into coq/gen so
that the search for a concrete failing configuration still has a model (the
evidence says so under facts_baseline_used_for_search).  The context judgement
of Graphiql.v (ctx_safe) compares real pages only and does not depend on it.
Refresh the baseline after every accepted change of the template.
"""
import hashlib
import re

NAME = "graphiql"

VARS = ["title", "version", "credentials", "endpoint", "subscription_endpoint", "headers", "ws_connection_params", "key", "value"]


def _lit(s):
    return "[" + ";".join(str(ord(c)) for c in s) + "]%N"


class Scanner:
    """tracks the HTML / JS lexical state across literal text"""

    def __init__(self, facts, rel):
        self.facts, self.rel = facts, rel
        self.elem = None      # None | 'title' | 'script' | 'style'
        self.quote = None     # inside script: None | "'" | '"' | '`'
        self.since_quote = ""  # text since the opening quote

    def feed(self, text):
        i = 0
        while i < len(text):
            c = text[i]
            if self.elem is None:
                m = re.compile(r"<(title|script|style)\b[^>]*>", re.I).match(text, i)
                if m:
                    self.elem = m.group(1).lower()
                    self.quote = None
                    i = m.end()
                    continue
                i += 1
                continue
            m = re.compile(r"</" + self.elem + r"\s*>", re.I).match(text, i)
            if m and self.quote is None:
                self.elem = None
                i = m.end()
                continue
            if self.elem == "script":
                if self.quote is None:
                    if c in "'\"`":
                        self.quote = c
                        self.since_quote = ""
                    elif text.startswith("//", i) and not text.startswith("://", i - 1):
                        j = text.find("\n", i)
                        i = len(text) if j < 0 else j
                        continue
                else:
                    if c == "\\":
                        self.since_quote += text[i:i + 2]
                        i += 2
                        continue
                    if c == self.quote:
                        self.quote = None
                    elif c == "\n" and self.quote != "`":
                        raise self.facts.Unsupported(f"{self.rel}: unterminated string literal in the template's script")
                    else:
                        self.since_quote += c
            i += 1

    def hole(self, name, nxt):
        if self.elem == "title":
            if not nxt.lower().startswith("</title>"):
                raise self.facts.Unsupported(f"{self.rel}: {{{{ {name} }}}} in <title> is not directly followed by </title>")
            return "CtxTitle"
        if self.elem == "script":
            if self.quote == "'" and self.since_quote == "" and nxt.startswith("'"):
                return "CtxJsSq"
            if self.quote == '"':
                return "CtxJsonDq"
            raise self.facts.Unsupported(f"{self.rel}: {{{{ {name} }}}} inside <script> is not a whole single-quoted literal nor inside a double-quoted string")
        raise self.facts.Unsupported(f"{self.rel}: {{{{ {name} }}}} in an unsupported HTML context ({self.elem})")


def gen(facts):
    rel = "templates/graphiql_source.jinja"
    text = facts.read(rel)
    if re.search(r"\{[{%]-|-[}%]\}|\{#", text):
        raise facts.Unsupported(f"{rel}: whitespace control markers / comments are not in the subset")
    toks = re.split(r"(\{\{.*?\}\}|\{%.*?%\})", text, flags=re.S)
    sc = Scanner(facts, rel)

    def var_id(n):
        if n not in VARS:
            raise facts.Unsupported(f"{rel}: unknown variable {n}")
        return VARS.index(n)

    # recursive descent over the token list
    pos = [0]

    def parse_until(stops):
        nodes = []
        while pos[0] < len(toks):
            t = toks[pos[0]]
            if t.startswith("{%"):
                body = t[2:-2].strip()
                if body in stops:
                    return nodes, body
                pos[0] += 1
                m = re.fullmatch(r"if let Some\((\w+)\) = (\w+)", body)
                if m:
                    if m.group(1) != m.group(2):
                        raise facts.Unsupported(f"{rel}: `{body}` rebinds under another name")
                    th, stop = parse_until(("else", "endif"))
                    pos[0] += 1
                    el = []
                    if stop == "else":
                        el, stop = parse_until(("endif",))
                        pos[0] += 1
                    nodes.append(f"TIfSome {var_id(m.group(2))} [{'; '.join(th)}] [{'; '.join(el)}]")
                    continue
                m = re.fullmatch(r"for \((\w+), (\w+)\) in (\w+)", body)
                if m:
                    if (m.group(1), m.group(2)) != ("key", "value"):
                        raise facts.Unsupported(f"{rel}: for-loop binds {m.group(1)}, {m.group(2)}; modelled is (key, value)")
                    bd, stop = parse_until(("endfor",))
                    pos[0] += 1
                    nodes.append(f"TFor {var_id(m.group(3))} [{'; '.join(bd)}]")
                    continue
                raise facts.Unsupported(f"{rel}: block tag not in subset: {t!r}")
            if t.startswith("{{"):
                name = t[2:-2].strip()
                if not re.fullmatch(r"\w+", name):
                    raise facts.Unsupported(f"{rel}: expression not in subset (filters, calls): {t!r}")
                nxt = toks[pos[0] + 1] if pos[0] + 1 < len(toks) else ""
                ctx = sc.hole(name, nxt)
                nodes.append(f"TVar {var_id(name)} {ctx}")
                pos[0] += 1
                continue
            if t:
                sc.feed(t)
                nodes.append(f"TLit {_lit(t)}")
            pos[0] += 1
        return nodes, None

    nodes, stop = parse_until(())
    if stop is not None or pos[0] != len(toks):
        raise facts.Unsupported(f"{rel}: unbalanced block tags")
    if sc.elem is not None or sc.quote is not None:
        raise facts.Unsupported(f"{rel}: template ends inside <{sc.elem}> / a string literal")

    # the struct: field kinds must be what the model's environment provides
    rel2 = "src/http/graphiql_source.rs"
    src = facts.read(rel2)
    body, s0, s1 = facts.span_after(src, r"pub struct GraphiQLSource<'a> \{", rel2)
    fields = dict(re.findall(r"(\w+):\s*([^\n]+),\n", body))
    want = {"endpoint": "&'a str", "subscription_endpoint": "Option<&'a str>", "version": "GraphiQLVersion<'a>",
            "headers": "Option<HashMap<&'a str, &'a str>>", "ws_connection_params": "Option<HashMap<&'a str, &'a str>>",
            "title": "Option<&'a str>", "credentials": "Credentials"}
    if fields != want:
        raise facts.Unsupported(f"{rel2}: GraphiQLSource fields left the modelled shape: {fields!r}")
    if not re.search(r'#\[template\(path = "graphiql_source\.jinja"\)\]', src):
        raise facts.Unsupported(f"{rel2}: template attribute is not the plain `path = \"graphiql_source.jinja\"` (escaper / syntax overrides are not modelled)")
    creds = re.findall(r'Self::(\w+) => write!\(f, "([^"]*)"\)', src)
    if [c[0] for c in creds] != ["SameOrigin", "Include", "Omit"]:
        raise facts.Unsupported(f"{rel2}: Credentials Display arms left the modelled shape: {creds!r}")
    dv = re.search(r'impl Default for GraphiQLVersion<\'_> \{\s*fn default\(\) -> Self \{\s*Self\("([^"]*)"\)', src)
    if not dv:
        raise facts.Unsupported(f"{rel2}: default GraphiQL version not found")

    out = facts.header("TemplateGen", rel, 1, text.count("\n") + 1, text)
    out = out.replace("Open Scope Z_scope.", "Open Scope N_scope.")
    out += "Inductive tctx := CtxTitle | CtxJsSq | CtxJsonDq.\n"
    out += "Inductive tnode :=\n| TLit (s : list N)\n| TVar (v : N) (c : tctx)\n| TIfSome (v : N) (th el : list tnode)\n| TFor (v : N) (body : list tnode).\n\n"
    out += "(* variables: " + ", ".join(f"{i} {n}" for i, n in enumerate(VARS)) + " *)\n"
    out += "Definition template_gen : list tnode :=\n  [" + ";\n   ".join(nodes) + "].\n\n"
    out += f"(* {rel2} lines {s0}-{s1}; sha256 {hashlib.sha256(body.encode()).hexdigest()} *)\n"
    out += "Definition credentials_gen : list (list N) := [" + "; ".join(_lit(c[1]) for c in creds) + "].\n"
    out += f"Definition default_version_gen : list N := {_lit(dv.group(1))}.\n"
    return facts.write_out("TemplateGen.v", out)

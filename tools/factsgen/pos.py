"""F6 — parser/src/pos.rs::PositionCalculator::{new, step} -> coq/gen/PosGen.v

Translates the arms of the `match ch { ... }` inside `step` into
`step_char_gen : N -> N * N -> N * N` (code point, (line, column)) and the
initial counters of `new` into `pos_init_gen`.  Everything around the match
(the loop over the characters between the previous and the new offset, the
returned `Pos { line, column }`) must keep the exact shape the hand-written
model in coq/theories/SrcPos.v assumes; otherwise Unsupported is raised.
"""
import hashlib
import re

NAME = "pos"

ESC = {"n": 10, "r": 13, "t": 9, "0": 0, "\\": 92, "'": 39, '"': 34}


def _strip_comments(s):
    return re.sub(r"//[^\n]*", "", s)


def _norm(s):
    return re.sub(r"\s+", " ", _strip_comments(s)).strip()


def _char_lit(facts, tok, rel):
    m = re.fullmatch(r"'(\\u\{([0-9a-fA-F_]+)\}|\\x([0-9a-fA-F]{2})|\\(.)|([^\\']))'", tok, re.S)
    if not m:
        raise facts.Unsupported(f"{rel}: step: pattern {tok!r} is not a char literal")
    if m.group(2):
        return int(m.group(2).replace("_", ""), 16)
    if m.group(3):
        return int(m.group(3), 16)
    if m.group(4):
        if m.group(4) not in ESC:
            raise facts.Unsupported(f"{rel}: step: escape {tok!r} not in subset")
        return ESC[m.group(4)]
    return ord(m.group(5))


def _stmts(facts, block, rel):
    """`self.line += 1; self.column = 1;` -> list of Gallina let-bindings."""
    out = []
    for st in [x.strip() for x in block.split(";")]:
        if not st:
            continue
        m = re.fullmatch(r"self\.(line|column)\s*(\+=|=)\s*(\d+)", st)
        if not m:
            raise facts.Unsupported(f"{rel}: step: statement not in subset: {st!r}")
        var, op, k = m.groups()
        rhs = f"{var} + {k}" if op == "+=" else k
        out.append(f"let {var} := ({rhs})%N in")
    return out


def _split_arms(facts, body, rel):
    """arms of the form  PATTERN => { stmts }  (optionally followed by a comma)."""
    arms = []
    i = 0
    body = _strip_comments(body)
    while True:
        m = re.compile(r"\s*([^={}]+?)\s*=>\s*\{").match(body, i)
        if not m:
            if body[i:].strip():
                raise facts.Unsupported(f"{rel}: step: match arm not in subset near {body[i:i + 40]!r}")
            break
        j = body.index("}", m.end())
        if "{" in body[m.end():j]:
            raise facts.Unsupported(f"{rel}: step: nested block in a match arm")
        arms.append((m.group(1).strip(), body[m.end():j]))
        i = j + 1
        while i < len(body) and body[i] in ", \n\t":
            i += 1
    return arms


def gen(facts):
    rel = "parser/src/pos.rs"
    text = facts.read(rel)
    body, l0, l1 = facts.span_after(text, r"pub\(crate\) fn step<R: RuleType>\(&mut self, pair: &Pair<R>\) -> Pos \{", rel)
    mm = re.search(r"match ch\s*\{", body)
    if not mm:
        raise facts.Unsupported(f"{rel}: step: no `match ch {{`")
    mbody, _, _ = facts.span_after(body, r"match ch\s*\{", rel)
    # the frame around the match
    k0 = mm.start()
    k1 = body.index(mbody, mm.end()) + len(mbody) + 1  # past the closing brace of the match
    frame = _norm(body[:k0] + "MATCH" + body[k1:])
    frame = re.sub(r"debug_assert!\([^;]*\); ?", "", frame)
    want = ("let pos = pair.as_span().start(); let bytes_to_read = pos - self.pos; "
            "let chars_to_read = self.input[..bytes_to_read].chars(); for ch in chars_to_read { MATCH } "
            "self.pos = pos; self.input = &self.input[bytes_to_read..]; "
            "Pos { line: self.line, column: self.column, }")
    if frame != want:
        raise facts.Unsupported(f"{rel}: step: code around the match left the modelled shape: {frame!r}")
    arms = _split_arms(facts, mbody, rel)
    if not arms:
        raise facts.Unsupported(f"{rel}: step: no arms")
    coq = ""
    closed = False
    for pat, block in arms:
        lets = " ".join(_stmts(facts, block, rel))
        res = f"{lets} (line, column)" if lets else "(line, column)"
        if pat == "_":
            coq += f"  {res}"
            closed = True
            break
        cps = [_char_lit(facts, p.strip(), rel) for p in pat.split("|")]
        cond = " || ".join(f"(ch =? {c})" for c in cps)
        coq += f"  if {cond} then {res} else\n"
    if not closed:
        raise facts.Unsupported(f"{rel}: step: no final `_` arm")
    # PositionCalculator::new
    nbody, n0, n1 = facts.span_after(text, r"pub\(crate\) fn new\(input: &'a str\) -> PositionCalculator<'a> \{", rel)
    nn = _norm(nbody)
    m = re.fullmatch(r"Self \{ input, pos: 0, line: (\d+), column: (\d+), \}", nn)
    if not m:
        raise facts.Unsupported(f"{rel}: new: initialiser left the modelled shape: {nn!r}")
    out = facts.header("PosGen", rel, l0, l1, body)
    out = out.replace("Open Scope Z_scope.", "Open Scope N_scope.")
    out += f"(* PositionCalculator::new, lines {n0}-{n1}; sha256 {hashlib.sha256(nbody.encode()).hexdigest()} *)\n"
    out += f"Definition pos_init_gen : N * N := ({m.group(1)}, {m.group(2)}).\n\n"
    out += "(* one iteration of `for ch in chars_to_read { match ch { ... } }`: (line, column) *)\n"
    out += "Definition step_char_gen (ch : N) (lc : N * N) : N * N :=\n  let '(line, column) := lc in\n" + coq + ".\n"
    return facts.write_out("PosGen.v", out)

"""F11 — the GET branches of the five bundled web-framework integrations.

For each integration the plugin extracts, from the crate's source text, the
block that handles an HTTP GET request, checks that it has the shape

    GET  ->  decoder (async_graphql::http::parse_query_string, or rocket's
             `GraphQLQuery` form + `Request::new`)  ->  Request / BatchRequest
         ->  Executor::execute / execute_batch / execute_stream

and reports whether an operation-type test lies on that path: in the GET
block itself, in the glue that hands the request to the executor, or in the
shared decoder `parse_query_string` (src/http/mod.rs).  An "operation-type
test" is any mention of the parsed operation (`OperationType`, `parse_query(`,
`parsed_query`, `.operations`, `DocumentOperations`, `is_mutation`,
`is_query`, `disallow_mutation`, `allow_mutation`, `query_only`).

Output: coq/gen/GetGuardGen.v with, per integration, `decoder` (which decoder
the branch calls), `guard` (operation-type test on the path) and the wire key
under which the operation name travels.  Anything outside this shape raises
Unsupported.
"""
import hashlib
import re

NAME = "getguard"

GUARD_TOKENS = re.compile(
    r"OperationType|parse_query\s*\(|parsed_query|\.operations\b|DocumentOperations|is_mutation|is_query\b|"
    r"disallow_mutation|allow_mutation|query_only|reject_mutation|forbid_mutation")

EXEC_CALL = re.compile(r"\.\s*(execute|execute_batch|execute_stream)\s*\(")


def _strip_comments(t):
    return re.sub(r"//[^\n]*", "", t)


def _need(cond, facts, msg):
    if not cond:
        raise facts.Unsupported(msg)


def _axum(facts):
    rel = "integrations/axum/src/extract.rs"
    t = _strip_comments(facts.read(rel))
    impl, i0, i1 = facts.span_after(t, r"impl<S, R> FromRequest<S> for GraphQLBatchRequest<R>[^{]*\{", rel)
    get, g0, g1 = facts.span_after(impl, r"if req\.method\(\) == Method::GET \{", rel)
    _need("async_graphql::http::parse_query_string(" in get, facts, f"{rel}: GET branch does not call parse_query_string")
    _need(re.search(r"BatchRequest::Single\(", get), facts, f"{rel}: GET branch does not build BatchRequest::Single")
    # single-request extractor goes through the batch extractor
    single, s0, s1 = facts.span_after(t, r"impl<S, R> FromRequest<S> for GraphQLRequest<R>[^{]*\{", rel)
    _need("GraphQLBatchRequest::<R>::from_request(req, state)" in single, facts, f"{rel}: GraphQLRequest does not delegate to GraphQLBatchRequest")
    rel2 = "integrations/axum/src/query.rs"
    q = _strip_comments(facts.read(rel2))
    call, c0, c1 = facts.span_after(q, r"fn call\(&mut self, req: HttpRequest<B>\) -> Self::Future \{", rel2)
    _need(re.search(r"executor\.execute_batch\(req\.0\)", call) and re.search(r"executor\.execute_stream\(req\.0, None\)", call),
          facts, f"{rel2}: service does not hand the extracted request to the executor in the expected shape")
    glue = single + call
    return {"files": f"{rel} (GET branch lines {i0 + g0 - 1}-{i0 + g1 - 1}), {rel2} (call lines {c0}-{c1})",
            "decoder": "DParseQueryString", "span": get + glue, "guard_here": bool(GUARD_TOKENS.search(get + glue))}


def _actix(facts):
    rel = "integrations/actix-web/src/request.rs"
    t = _strip_comments(facts.read(rel))
    impl, i0, i1 = facts.span_after(t, r"impl FromRequest for GraphQLBatchRequest \{", rel)
    get, g0, g1 = facts.span_after(impl, r"if req\.method\(\) == Method::GET \{", rel)
    _need("async_graphql::http::parse_query_string(req.query_string())" in get, facts, f"{rel}: GET branch does not call parse_query_string")
    _need(re.search(r"BatchRequest::Single\(", get), facts, f"{rel}: GET branch does not build BatchRequest::Single")
    single, s0, s1 = facts.span_after(t, r"impl FromRequest for GraphQLRequest \{", rel)
    _need("GraphQLBatchRequest::from_request(req, payload)" in single, facts, f"{rel}: GraphQLRequest does not delegate to GraphQLBatchRequest")
    rel2 = "integrations/actix-web/src/handler.rs"
    h = _strip_comments(facts.read(rel2))
    _need(EXEC_CALL.search(h), facts, f"{rel2}: handler does not call the executor")
    hb, h0, h1 = facts.span_after(h, r"impl<E: Executor> GraphQL<E> \{|impl<E> GraphQL<E>[^{]*\{", rel2)
    glue = single + h
    return {"files": f"{rel} (GET branch lines {i0 + g0 - 1}-{i0 + g1 - 1}), {rel2}",
            "decoder": "DParseQueryString", "span": get + glue, "guard_here": bool(GUARD_TOKENS.search(get + glue))}


def _poem(facts):
    rel = "integrations/poem/src/extractor.rs"
    t = _strip_comments(facts.read(rel))
    impl, i0, i1 = facts.span_after(t, r"impl<'a> FromRequest<'a> for GraphQLBatchRequest \{", rel)
    get, g0, g1 = facts.span_after(impl, r"if req\.method\(\) == Method::GET \{", rel)
    _need("async_graphql::http::parse_query_string(" in get, facts, f"{rel}: GET branch does not call parse_query_string")
    _need(re.search(r"BatchRequest::Single\(", get), facts, f"{rel}: GET branch does not build BatchRequest::Single")
    single, s0, s1 = facts.span_after(t, r"impl<'a> FromRequest<'a> for GraphQLRequest \{", rel)
    _need("GraphQLBatchRequest::from_request(req, body)" in single, facts, f"{rel}: GraphQLRequest does not delegate to GraphQLBatchRequest")
    rel2 = "integrations/poem/src/query.rs"
    q = _strip_comments(facts.read(rel2))
    _need(EXEC_CALL.search(q), facts, f"{rel2}: endpoint does not call the executor")
    glue = single + q
    return {"files": f"{rel} (GET branch lines {i0 + g0 - 1}-{i0 + g1 - 1}), {rel2}",
            "decoder": "DParseQueryString", "span": get + glue, "guard_here": bool(GUARD_TOKENS.search(get + glue))}


def _warp(facts):
    rel = "integrations/warp/src/batch_request.rs"
    t = _strip_comments(facts.read(rel))
    fn, f0, f1 = facts.span_after(t, r"pub fn graphql_batch_opts<E>\([^{]*\{", rel)
    m = re.search(r"warp::get\(\)\s*\.and\(warp::filters::query::raw\(\)\)\s*\.and_then\(\s*\|query_string: String\| async move \{", fn)
    _need(m, facts, f"{rel}: GET filter not in the expected shape")
    get, g0, g1 = facts.span_after(fn, r"\|query_string: String\| async move \{", rel)
    _need("async_graphql::http::parse_query_string(&query_string)" in get, facts, f"{rel}: GET filter does not call parse_query_string")
    _need(re.search(r"\.map\(move \|res\| \(executor\.clone\(\), res\)\)", fn), facts, f"{rel}: filter does not output (executor, request)")
    rel2 = "integrations/warp/src/request.rs"
    q = _strip_comments(facts.read(rel2))
    _need("graphql_batch_opts(" in q or "graphql_batch(" in q or "parse_query_string(" in q, facts,
          f"{rel2}: single-request filter neither reuses the batch filter nor calls parse_query_string")
    glue = fn + q
    return {"files": f"{rel} (GET filter lines {f0 + g0 - 1}-{f0 + g1 - 1}), {rel2}",
            "decoder": "DParseQueryString", "span": glue, "guard_here": bool(GUARD_TOKENS.search(glue))}


def _rocket(facts):
    rel = "integrations/rocket/src/lib.rs"
    t = _strip_comments(facts.read(rel))
    st, s0, s1 = facts.span_after(t, r"pub struct GraphQLQuery \{", rel)
    _need(re.search(r'query: String,\s*#\[field\(name = "operationName"\)\]\s*operation_name: Option<String>,\s*variables: Option<String>,', st),
          facts, f"{rel}: GraphQLQuery form fields not in the expected shape")
    head = t[:t.index("pub struct GraphQLQuery {")]
    _need(re.search(r"#\[derive\([^)]*\bFromForm\b[^)]*\)\]\s*$", head.rstrip() + "\n", re.M) or "FromForm" in head[-200:], facts,
          f"{rel}: GraphQLQuery does not derive FromForm")
    conv, c0, c1 = facts.span_after(t, r"impl From<GraphQLQuery> for GraphQLRequest \{", rel)
    _need("async_graphql::Request::new(query.query)" in conv, facts, f"{rel}: From<GraphQLQuery> does not build Request::new(query.query)")
    ex, e0, e1 = facts.span_after(t, r"impl GraphQLQuery \{", rel)
    _need(re.search(r"let request: GraphQLRequest = self\.into\(\);\s*request\.execute\(executor\)\.await", ex), facts,
          f"{rel}: GraphQLQuery::execute not in the expected shape")
    rq, r0, r1 = facts.span_after(t, r"impl GraphQLRequest \{", rel)
    _need(re.search(r"executor\.execute\(self\.0\)", rq), facts, f"{rel}: GraphQLRequest::execute does not call the executor")
    glue = conv + ex + rq
    return {"files": f"{rel} (GraphQLQuery lines {s0}-{s1}, From lines {c0}-{c1}, execute lines {e0}-{e1})",
            "decoder": "DRocketForm", "span": st + glue, "guard_here": bool(GUARD_TOKENS.search(st + glue))}


def gen(facts):
    rel = "src/http/mod.rs"
    t = _strip_comments(facts.read(rel))
    pq, p0, p1 = facts.span_after(t, r"pub fn parse_query_string\(input: &str\) -> Result<Request, ParseRequestError> \{", rel)
    _need(re.search(r"\.\.Request::new\(request\.query\)", pq), facts, f"{rel}: parse_query_string does not build Request::new(request.query)")
    central = bool(GUARD_TOKENS.search(pq))
    # the wire fields of the shared decoder: struct RequestSerde, one row per field
    # (rust name, wire keys = serde rename + aliases or the rust name, type, serde default)
    st, s0, s1 = facts.span_after(pq, r"struct RequestSerde \{", rel)
    _need("deny_unknown_fields" not in pq and "flatten" not in pq and "rename_all" not in pq, facts,
          f"{rel}: RequestSerde carries a container attribute the decoder model does not cover")
    fields = []
    for fm in re.finditer(r'((?:\s*#\[[^\]]*\])*)\s*pub (\w+): ([^,\n]+),', st):
        attrs, fname, fty = fm.group(1), fm.group(2), fm.group(3).strip()
        keys = re.findall(r'(?:rename|alias)\s*=\s*"([^"]+)"', attrs)
        other = re.sub(r'(?:rename|alias)\s*=\s*"[^"]+"|default|serde|[#\[\]\(\),\s]', "", attrs)
        _need(other == "", facts, f"{rel}: RequestSerde.{fname} carries an attribute the decoder model does not cover: {attrs.strip()!r}")
        if not re.search(r'rename\s*=', attrs):
            keys = [fname] + keys
        fields.append((fname, keys, fty, bool(re.search(r"\bdefault\b", attrs))))
    _need([(f, t, d) for f, _, t, d in fields] ==
          [("query", "String", True), ("operation_name", "Option<String>", False),
           ("variables", "Option<String>", False), ("extensions", "Option<String>", False)],
          facts, f"{rel}: RequestSerde fields are not query: String (default), operation_name / variables / extensions: Option<String>: {fields}")
    keys_of = {f: k for f, k, _, _ in fields}
    opkey = keys_of["operation_name"][0]
    # how the decoded fields reach the Request: the operation name (and the query) must be
    # carried verbatim; any expression around them is outside what the decoder model covers
    lit, l0, l1 = facts.span_after(pq, r"Ok\(Request \{", rel)
    flat = re.sub(r"\s+", " ", lit)
    m = re.search(r"operation_name: ([^,]*(?:\([^)]*\)[^,]*)*),", flat)
    _need(m, facts, f"{rel}: parse_query_string does not set Request.operation_name")
    _need(m.group(1).strip() == "request.operation_name", facts,
          f"{rel}: parse_query_string no longer carries the decoded operation name verbatim into the Request "
          f"(operation_name: {m.group(1).strip()}); the GET decoder model (Some \"\" stays Some \"\") does not cover it")
    _need(len(re.findall(r"\brequest\.operation_name\b", pq)) == 1 and len(re.findall(r"\brequest\.query\b", pq)) == 1, facts,
          f"{rel}: parse_query_string touches request.operation_name / request.query elsewhere")

    rows = [("Axum", _axum(facts)), ("ActixWeb", _actix(facts)), ("Poem", _poem(facts)), ("Warp", _warp(facts)), ("Rocket", _rocket(facts))]
    spans = pq + "".join(r["span"] for _, r in rows)

    def gstr(s):
        return "[" + ";".join(str(ord(c)) for c in s) + "]%N"

    out = ("(* GENERATED by tools/factsgen/getguard.py from\n"
           f"     {rel} (parse_query_string lines {p0}-{p1})\n"
           + "".join(f"     {r['files']}\n" for _, r in rows) +
           f"   sha256(spans) = {hashlib.sha256(spans.encode()).hexdigest()}\n"
           "   Do not edit: regenerated from /repo on every run. *)\n"
           "From Coq Require Import NArith Bool List.\nImport ListNotations.\n\n"
           "Inductive integ := Axum | ActixWeb | Poem | Warp | Rocket.\n"
           "Inductive decoder := DParseQueryString | DRocketForm.\n\n"
           "(* which decoder the GET branch calls *)\n"
           "Definition get_decoder_gen (i : integ) : decoder :=\n  match i with\n"
           + "".join(f"  | {n} => {r['decoder']}\n" for n, r in rows) + "  end.\n\n"
           "(* an operation-type test in the integration's own GET branch / glue *)\n"
           "Definition get_guard_local_gen (i : integ) : bool :=\n  match i with\n"
           + "".join(f"  | {n} => {'true' if r['guard_here'] else 'false'}\n" for n, r in rows) + "  end.\n\n"
           "(* an operation-type test inside async_graphql::http::parse_query_string *)\n"
           f"Definition get_guard_central_gen : bool := {'true' if central else 'false'}.\n\n"
           "(* wire key of the operation name: shared decoder / rocket form *)\n"
           f"Definition opname_key_pqs_gen : list N := {gstr(opkey)}.\n"
           "(* every wire key of each field of the shared decoder's RequestSerde (serde rename + aliases) *)\n"
           f"Definition query_keys_pqs_gen : list (list N) := [{'; '.join(gstr(k) for k in keys_of['query'])}].\n"
           f"Definition opname_keys_pqs_gen : list (list N) := [{'; '.join(gstr(k) for k in keys_of['operation_name'])}].\n"
           f"Definition variables_keys_pqs_gen : list (list N) := [{'; '.join(gstr(k) for k in keys_of['variables'])}].\n"
           f"Definition extensions_keys_pqs_gen : list (list N) := [{'; '.join(gstr(k) for k in keys_of['extensions'])}].\n"
           f"Definition opname_key_rocket_gen : list N := {gstr('operationName')}.\n")
    return facts.write_out("GetGuardGen.v", out)

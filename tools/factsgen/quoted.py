"""F5 (value part) — value/src/lib.rs::write_quoted -> coq/gen/QuotedGen.v

Translates the escape table of `write_quoted` (the printer of GraphQL string
literals used by Display for ConstValue / Value):
  * the literal arms   'c' => f.write_str("..."),
  * the guarded arm    c if c.is_control() => write!(f, "\\u{:04}", c as u32),
    — prefix text, radix, width, zero padding and letter case of the format —
  * the default arm    c => f.write_char(c),
and checks the frame (opening quote, loop over chars, closing quote) and the
separators used by write_list / write_object.
"""
import hashlib
import re

NAME = "quoted"

ESC = {"n": 10, "r": 13, "t": 9, "0": 0, "\\": 92, "'": 39, '"': 34}


def _norm(s):
    return re.sub(r"\s+", " ", re.sub(r"//[^\n]*", "", s)).strip()


def _unescape(facts, lit, rel):
    """Rust string/char literal body -> list of code points."""
    out = []
    i = 0
    while i < len(lit):
        c = lit[i]
        if c == "\\":
            d = lit[i + 1]
            if d == "u":
                m = re.match(r"\{([0-9a-fA-F_]+)\}", lit[i + 2:])
                if not m:
                    raise facts.Unsupported(f"{rel}: bad \\u escape in {lit!r}")
                out.append(int(m.group(1).replace("_", ""), 16))
                i += 2 + m.end()
                continue
            if d == "x":
                out.append(int(lit[i + 2:i + 4], 16))
                i += 4
                continue
            if d not in ESC:
                raise facts.Unsupported(f"{rel}: escape \\{d} not in subset")
            out.append(ESC[d])
            i += 2
        else:
            out.append(ord(c))
            i += 1
    return out


def _glist(cps):
    return "[" + "; ".join(str(c) for c in cps) + "]"


def gen(facts):
    rel = "value/src/lib.rs"
    text = facts.read(rel)
    body, l0, l1 = facts.span_after(text, r"fn write_quoted\(s: &str, f: &mut Formatter<'_>\) -> fmt::Result \{", rel)
    mm = re.search(r"match c\s*\{", body)
    if not mm:
        raise facts.Unsupported(f"{rel}: write_quoted: no `match c {{`")
    mbody, _, _ = facts.span_after(body, r"match c\s*\{", rel)
    k1 = body.index(mbody, mm.end()) + len(mbody) + 1
    frame = _norm(body[:mm.start()] + "MATCH" + body[k1:])
    want = "f.write_char('\"')?; for c in s.chars() { MATCH? } f.write_char('\"')"
    if frame != want:
        raise facts.Unsupported(f"{rel}: write_quoted: code around the match left the modelled shape: {frame!r}")
    arms = [a.strip() for a in re.sub(r"//[^\n]*", "", mbody).split("\n") if a.strip()]
    table = []
    guard = None
    default = False
    for arm in arms:
        if default:
            raise facts.Unsupported(f"{rel}: write_quoted: arm after the default arm: {arm!r}")
        m = re.fullmatch(r"('(?:\\.|[^\\'])')\s*=>\s*f\.write_str\(\"((?:\\.|[^\"\\])*)\"\),", arm)
        if m:
            if guard is not None:
                raise facts.Unsupported(f"{rel}: write_quoted: literal arm after the guarded arm (order matters)")
            cp = _unescape(facts, m.group(1)[1:-1], rel)
            table.append((cp[0], _unescape(facts, m.group(2), rel)))
            continue
        m = re.fullmatch(r"c if c\.is_control\(\)\s*=>\s*write!\(f, \"((?:\\.|[^\"\\])*)\", c as u32\),", arm)
        if m:
            fmt = m.group(1)
            fm = re.fullmatch(r"((?:\\.|[^{}\\])*)\{:(0?)(\d*)([xX]?)\}", fmt)
            if not fm:
                raise facts.Unsupported(f"{rel}: write_quoted: format string {fmt!r} not in subset")
            prefix = _unescape(facts, fm.group(1), rel)
            zero = fm.group(2) == "0"
            width = int(fm.group(3) or "0")
            radix = 16 if fm.group(4) else 10
            upper = fm.group(4) == "X"
            if not zero and width > 0:
                raise facts.Unsupported(f"{rel}: write_quoted: space padding not in subset")
            guard = (prefix, radix, width, upper)
            continue
        if re.fullmatch(r"c\s*=>\s*f\.write_char\(c\),", arm):
            default = True
            continue
        raise facts.Unsupported(f"{rel}: write_quoted: arm not in subset: {arm!r}")
    if not default or guard is None:
        raise facts.Unsupported(f"{rel}: write_quoted: missing guarded or default arm")

    # separators of write_list / write_object
    lbody, ll0, ll1 = facts.span_after(text, r"fn write_list<T: Display>\(list: impl IntoIterator<Item = T>, f: &mut Formatter<'_>\) -> fmt::Result \{", rel)
    want_l = ("f.write_char('[')?; let mut iter = list.into_iter(); if let Some(item) = iter.next() { item.fmt(f)?; } "
              "for item in iter { f.write_str(\", \")?; item.fmt(f)?; } f.write_char(']')")
    if _norm(lbody) != want_l:
        raise facts.Unsupported(f"{rel}: write_list left the modelled shape: {_norm(lbody)!r}")
    obody, o0, o1 = facts.span_after(text, r"fn write_object<K: Display, V: Display>\(\s*object: impl IntoIterator<Item = \(K, V\)>,\s*f: &mut Formatter<'_>,\s*\) -> fmt::Result \{", rel)
    want_o = ("f.write_char('{')?; let mut iter = object.into_iter(); if let Some((name, value)) = iter.next() { "
              "write!(f, \"{}: {}\", name, value)?; } for (name, value) in iter { f.write_str(\", \")?; "
              "write!(f, \"{}: {}\", name, value)?; } f.write_char('}')")
    if _norm(obody) != want_o:
        raise facts.Unsupported(f"{rel}: write_object left the modelled shape: {_norm(obody)!r}")
    # Display for ConstValue: which printer each variant uses
    dbody, d0, d1 = facts.span_after(text, r"impl Display for ConstValue \{", rel)
    want_d = ("fn fmt(&self, f: &mut Formatter<'_>) -> fmt::Result { match self { "
              "Self::Number(num) => write!(f, \"{}\", *num), Self::String(val) => write_quoted(val, f), "
              "Self::Boolean(true) => f.write_str(\"true\"), Self::Boolean(false) => f.write_str(\"false\"), "
              "Self::Binary(bytes) => write_binary(bytes, f), Self::Null => f.write_str(\"null\"), "
              "Self::Enum(name) => f.write_str(name), Self::List(items) => write_list(items, f), "
              "Self::Object(map) => write_object(map, f), } }")
    if _norm(dbody) != want_d:
        raise facts.Unsupported(f"{rel}: Display for ConstValue left the modelled shape: {_norm(dbody)!r}")

    out = facts.header("QuotedGen", rel, l0, l1, body).replace("Open Scope Z_scope.", "Open Scope N_scope.")
    out += "(* literal arms of write_quoted, in source order: character -> replacement text *)\n"
    out += "Definition quoted_table_gen : list (N * list N) :=\n  [" + ";\n   ".join(f"({c}, {_glist(r)})" for c, r in table) + "].\n\n"
    prefix, radix, width, upper = guard
    out += "(* guarded arm `c if c.is_control() => write!(f, FORMAT, c as u32)` *)\n"
    out += f"Definition quoted_u_prefix_gen : list N := {_glist(prefix)}.\n"
    out += f"Definition quoted_u_radix_gen : N := {radix}.\n"
    out += f"Definition quoted_u_width_gen : nat := {width}.\n"
    out += f"Definition quoted_u_upper_gen : bool := {'true' if upper else 'false'}.\n\n"
    out += f"(* write_list lines {ll0}-{ll1} sha256 {hashlib.sha256(lbody.encode()).hexdigest()[:16]}; write_object lines {o0}-{o1} sha256 {hashlib.sha256(obody.encode()).hexdigest()[:16]};\n"
    out += f"   Display for ConstValue lines {d0}-{d1} sha256 {hashlib.sha256(dbody.encode()).hexdigest()[:16]}: shapes checked by the translator *)\n"
    out += "Definition list_sep_gen : list N := [44; 32].\nDefinition field_sep_gen : list N := [58; 32].\n"
    return facts.write_out("QuotedGen.v", out)

"""C12 — constants and escape tables of the panic-prone decoders -> coq/gen/CrashConstGen.v

Translates
  * src/types/upload.rs   `const PREFIX: &str = "...";` inside `Upload::parse`, and the shape
                          `strip_prefix(PREFIX)` + `parse::<usize>().unwrap()` + `uploads[self.0]`
                          (each as a boolean: does the panicking form still exist?)
  * src/request.rs        the literal of `format!("<marker>{}", self.uploads.len() - 1)` in set_upload
  * parser/src/parse/executable.rs   `const MAX_RECURSION_DEPTH: usize = N;`
  * parser/src/parse/utils.rs        the escape arms of `string_value` (identity arms and
                                     `'x' => '\\xNN'` arms) and the `'u'` arm reading 4 hex digits
  * parser/src/graphql.pest          the simple escapes of rule `string_character`, and the rules
                                     `unicode_scalar_value_hex`, `type_`, `name`, `name_start`
                                     (must keep the text the hand-written recognisers were read from)
Anything outside these shapes raises Unsupported.
"""
import hashlib
import re

NAME = "crashconst"

RUST_ESC = {"n": 10, "r": 13, "t": 9, "0": 0, "\\": 92, "'": 39, '"': 34}


def _char_lit(facts, lit, where):
    """value of a Rust char literal body (between the quotes)"""
    if len(lit) == 1:
        return ord(lit)
    if lit.startswith("\\x") and len(lit) == 4:
        return int(lit[2:], 16)
    if lit.startswith("\\") and len(lit) == 2 and lit[1] in RUST_ESC:
        return RUST_ESC[lit[1]]
    raise facts.Unsupported(f"{where}: char literal {lit!r} not in subset")


def _str_lit(facts, lit, where):
    out, i = [], 0
    while i < len(lit):
        c = lit[i]
        if c == "\\":
            if lit[i + 1] not in RUST_ESC:
                raise facts.Unsupported(f"{where}: escape in string literal not in subset")
            out.append(RUST_ESC[lit[i + 1]])
            i += 2
        else:
            out.append(ord(c))
            i += 1
    return out


def _norm(s):
    return re.sub(r"\s+", " ", re.sub(r"//[^\n]*", "", s)).strip()


def _glist(l):
    return "[" + "; ".join(str(x) for x in l) + "]"


def gen(facts):
    spans = []
    # ---- upload.rs
    rel = "src/types/upload.rs"
    text = facts.read(rel)
    body, l0, l1 = facts.span_after(text, r"fn parse\(value: Option<Value>\) -> InputValueResult<Self> \{", rel)
    spans.append(body)
    m = re.search(r'const PREFIX: &str = "((?:[^"\\]|\\.)*)";', body)
    if not m:
        raise facts.Unsupported(f"{rel}: Upload::parse: const PREFIX not found")
    prefix = _str_lit(facts, m.group(1), rel)
    nb = _norm(body)
    if "s.strip_prefix(PREFIX)" not in nb or "let value = value.unwrap_or_default();" not in nb:
        raise facts.Unsupported(f"{rel}: Upload::parse left the modelled shape (unwrap_or_default / strip_prefix(PREFIX))")
    if "Err(InputValueError::expected_type(value))" not in nb:
        raise facts.Unsupported(f"{rel}: Upload::parse: fallback error branch not found")
    parse_unwraps = "return Ok(Upload(filename.parse::<usize>().unwrap()));" in nb
    if not parse_unwraps and "parse::<usize>()" not in nb:
        raise facts.Unsupported(f"{rel}: Upload::parse: the suffix is no longer parsed as usize")
    vbody, v0, v1 = facts.span_after(text, r"pub fn value\(&self, ctx: &Context<'_>\) -> std::io::Result<UploadValue> \{", rel)
    spans.append(vbody)
    nv = _norm(vbody)
    value_indexes = nv == "ctx.query_env.uploads[self.0].try_clone()"
    if not value_indexes and "uploads" not in nv:
        raise facts.Unsupported(f"{rel}: Upload::value left the modelled shape: {nv!r}")
    # ---- request.rs
    rel2 = "src/request.rs"
    t2 = facts.read(rel2)
    sbody, s0, s1 = facts.span_after(t2, r"pub fn set_upload\(&mut self, var_path: &str, upload: UploadValue\) \{", rel2)
    spans.append(sbody)
    ns = _norm(sbody)
    m = re.search(r'\*variable = Value::String\(format!\("((?:[^"\\]|\\.)*)\{\}", self\.uploads\.len\(\) - 1\)\);', ns)
    if not m:
        raise facts.Unsupported(f"{rel2}: set_upload: marker format! not in the modelled shape")
    marker = _str_lit(facts, m.group(1), rel2)
    for need, what in (('path.strip_prefix("variables.")?.split(\'.\')', "strip_prefix(\"variables.\")?.split('.')"),
                       ("variables.get_mut(parts.next().unwrap())?", "first segment looked up in the variables map"),
                       ("part .parse::<u32>() .ok()", "list index parsed as u32"),
                       ("Value::Object(obj) => obj.get_mut(part),", "object member lookup"),
                       ("self.uploads.push(upload);", "upload pushed before the marker is written")):
        if need not in ns:
            raise facts.Unsupported(f"{rel2}: set_upload left the modelled shape ({what})")
    # ---- executable.rs
    rel3 = "parser/src/parse/executable.rs"
    t3 = facts.read(rel3)
    m = re.search(r"const MAX_RECURSION_DEPTH: usize = (\d+);", t3)
    if not m:
        raise facts.Unsupported(f"{rel3}: MAX_RECURSION_DEPTH not found")
    maxrec = int(m.group(1))
    spans.append(m.group(0))
    # ---- utils.rs string_value
    rel4 = "parser/src/parse/utils.rs"
    t4 = facts.read(rel4)
    ubody, u0, u1 = facts.span_after(t4, r"pub\(super\) fn string_value\(s: &str\) -> String \{", rel4)
    spans.append(ubody)
    nu = _norm(ubody)
    if "'\\\\' => match chars.next().expect(\"backslash at end\") {" not in nu:
        raise facts.Unsupported(f"{rel4}: string_value: backslash arm left the modelled shape")
    if "other => other," not in nu or "_ => unreachable!()," not in nu:
        raise facts.Unsupported(f"{rel4}: string_value: pass-through / unreachable arms not found")
    esc = []
    mi = re.search(r"((?:c @ '(?:[^'\\]|\\.)' \| )*c @ '(?:[^'\\]|\\.)') => c,", nu)
    if not mi:
        raise facts.Unsupported(f"{rel4}: string_value: identity escape arm not found")
    for lit in re.findall(r"c @ '((?:[^'\\]|\\.))'", mi.group(1)):
        v = _char_lit(facts, lit, rel4)
        esc.append((v, v))
    inner = nu[nu.index("expect(\"backslash at end\") {"):]
    for a, b in re.findall(r"'([a-z])' => '((?:\\x[0-9A-Fa-f]{2}|\\.|[^'\\]))',", inner):
        esc.append((ord(a), _char_lit(facts, b, rel4)))
    want_u = ("'u' => std::char::from_u32( (0..4) .map(|_| chars.next().unwrap().to_digit(16).unwrap()) "
              ".fold(0, |acc, digit| acc * 16 + digit), ) .unwrap(),")
    if want_u not in nu:
        raise facts.Unsupported(f"{rel4}: string_value: the 'u' arm left the modelled shape")
    arms = len(re.findall(r"=>", inner.split("_ => unreachable!()")[0]))
    # arms before `_ => unreachable!()`: identity arm (1) + simple arms + the 'u' arm
    if arms != 1 + (len(esc) - len(re.findall(r"c @ ", mi.group(1)))) + 1:
        raise facts.Unsupported(f"{rel4}: string_value: an escape arm outside the subset exists")
    # ---- graphql.pest
    rel5 = "parser/src/graphql.pest"
    t5 = facts.read(rel5)

    def rule(name):
        m = re.search(r"^" + re.escape(name) + r"[ \t]*=[ \t]*([_@$!]?)\{([^\n]*)\}[ \t]*$", t5, re.M)
        if not m:
            m = re.search(r"^" + re.escape(name) + r"[ \t]*=[ \t]*([_@$!]?)\{[ \t]*\n(.*?)^\}", t5, re.S | re.M)
        if not m:
            raise facts.Unsupported(f"{rel5}: rule {name} not found")
        mod, body = m.group(1), m.group(2)
        spans.append(name + mod + body)
        return mod, _norm(body)

    mod, sc = rule("string_character")
    want_sc = ('(!("\\"" | "\\\\" | line_terminator) ~ ANY) | ("\\\\" ~ (%s)) | ("\\\\u" ~ unicode_scalar_value_hex)')
    msc = re.fullmatch(re.escape(want_sc).replace("%s", r"(.*?)"), sc)
    if not msc or mod != "":
        raise facts.Unsupported(f"{rel5}: rule string_character left the modelled shape: {sc!r}")
    pest_esc = []
    for alt in msc.group(1).split("|"):
        alt = alt.strip()
        mm = re.fullmatch(r'"((?:[^"\\]|\\.))"', alt)
        if not mm:
            raise facts.Unsupported(f"{rel5}: string_character escape alternative {alt!r} not in subset")
        pest_esc.append(_str_lit(facts, mm.group(1), rel5)[0])
    checks = {
        "string_content": ("@", "string_character*"),
        "unicode_scalar_value_hex": ("", "!(^\"d\" ~ ('8'..'9' | 'a'..'f' | 'A'..'F')) ~ ASCII_HEX_DIGIT{4}"),
        "line_terminator": ("@", '"\\r\\n" | "\\r" | "\\n"'),
        "type_": ("@", '(name | "[" ~ type_ ~ "]") ~ "!"?'),
        "name_start": ("@", '(ASCII_ALPHA | "_")'),
        "name": ("@", 'name_start ~ (ASCII_ALPHA | ASCII_DIGIT | "_")*'),
    }
    for nm, (wmod, wbody) in checks.items():
        mod, b = rule(nm)
        if mod != wmod or b != wbody:
            raise facts.Unsupported(f"{rel5}: rule {nm} left the shape the hand-written recogniser was read from: {mod}{{{b}}}")
    h = hashlib.sha256("\n".join(spans).encode()).hexdigest()
    out = (f"(* GENERATED by tools/factsgen/crashconst.py from {rel} (Upload::parse lines {l0}-{l1}, Upload::value {v0}-{v1}),\n"
           f"   {rel2} (set_upload {s0}-{s1}), {rel3}, {rel4} (string_value {u0}-{u1}), {rel5}\n"
           f"   sha256(spans) = {h}\n"
           f"   Do not edit: regenerated from /repo on every run. *)\n"
           "From Coq Require Import NArith List.\nImport ListNotations.\nOpen Scope N_scope.\n\n")
    out += f"(* const PREFIX in Upload::parse *)\nDefinition upload_prefix_gen : list N := {_glist(prefix)}.\n"
    out += f"(* literal part of the format! in Request::set_upload *)\nDefinition upload_marker_gen : list N := {_glist(marker)}.\n"
    out += f"(* `filename.parse::<usize>().unwrap()` still present in Upload::parse *)\nDefinition upload_parse_unwraps_gen : bool := {'true' if parse_unwraps else 'false'}.\n"
    out += f"(* `ctx.query_env.uploads[self.0]` (panicking index) still present in Upload::value *)\nDefinition upload_value_indexes_gen : bool := {'true' if value_indexes else 'false'}.\n"
    out += f"Definition max_recursion_depth_gen : N := {maxrec}.\n"
    out += "(* string_value: escape character -> produced character (the arms other than 'u') *)\n"
    out += "Definition string_value_escapes_gen : list (N * N) := [" + "; ".join(f"({a}, {b})" for a, b in esc) + "].\n"
    out += "(* graphql.pest string_character: characters allowed after a backslash (other than u) *)\n"
    out += f"Definition pest_simple_escapes_gen : list N := {_glist(pest_esc)}.\n"
    return facts.write_out("CrashConstGen.v", out)

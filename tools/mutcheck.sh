#!/bin/bash
# tools/mutcheck.sh <patch.diff> <Cxx> [Cyy ...]
# Runs the given checks against a scratch worktree of /repo with the patch
# applied, in a private copy of /verif, so that /repo and /verif are untouched.
set -u
patch=$(realpath "$1"); shift
id=$$
wt=/tmp/mut-wt-$id
va=/tmp/mut-va-$id
git -C /repo worktree add -q --detach "$wt" HEAD || exit 3
trap 'git -C /repo worktree remove --force "$wt" >/dev/null 2>&1; rm -rf "$va"' EXIT
if ! git -C "$wt" apply "$patch"; then echo "PATCH-DOES-NOT-APPLY"; exit 3; fi
mkdir -p "$va"
rsync -a --exclude harness/target --exclude .work --exclude .git --exclude evidence --exclude replays /verif/ "$va/"
mkdir -p "$va/harness"
cp -al /verif/harness/target "$va/harness/target" 2>/dev/null
# vo files are copied by rsync, so only changed generated tables rebuild
sed -i "s#\"/repo#\"$wt#g" "$va/harness/Cargo.toml"
rc=0
for p in "$@"; do
  (cd "$va" && VERIF_REPO="$wt" timeout 3000 ./vcheck check "$p" --tier quick 2>&1 | tail -n 8) || rc=1
done
exit $rc

#!/usr/bin/env python3
"""seed_summary.py — regenerate seeded/SUMMARY.md from seeded/*/meta.json."""
import glob, json, os
ROOT = os.path.dirname(os.path.dirname(os.path.abspath(__file__)))
rows = []
for d in sorted(glob.glob(os.path.join(ROOT, "seeded", "C*"))):
    mp = os.path.join(d, "meta.json")
    if not os.path.exists(mp):
        continue
    m = json.load(open(mp))
    cc = m.get("coordinator_confirmation", {})
    files = m.get("files", [])
    if isinstance(files, str):
        files = [files]
    rows.append((os.path.basename(d), m.get("property", "?"), ", ".join(files)[:90],
                 cc.get("our_checks", "unconfirmed"),
                 f"{cc.get('demo_without_patch_exit')}/{cc.get('demo_with_patch_exit')}/{cc.get('test_suite_with_patch_exit')}",
                 (cc.get("note") or "").replace("|", "\\|").replace("\n", " ")[:400]))
out = ["# Seeded changes", "",
       "One directory per change produced by an independent agent (property text + scratch worktree only).",
       "`demo w/o / with / suite` are the exit codes of the demonstration without the patch, with the patch, and of the touched crates' test suite with the patch (0 = pass, 101 = test failure), from `confirm.log`.", "",
       "| dir | property | files | our checks | demo w/o / with / suite | note |", "|---|---|---|---|---|---|"]
for r in rows:
    out.append("| " + " | ".join(r) + " |")
n = len(rows)
c = sum(1 for r in rows if r[3] == "caught")
cs = sum(1 for r in rows if r[3] == "caught-after-strengthening")
out += ["", f"{n} seeds: {c} caught at first run, {cs} caught after strengthening the check, {n - c - cs} other (see notes)."]
open(os.path.join(ROOT, "seeded", "SUMMARY.md"), "w").write("\n".join(out) + "\n")
print(out[-1])

#!/usr/bin/env python3
"""Merge findings/Cxx.json fragments into known_findings.json (coordinator only, never at check time)."""
import glob, json, os
ROOT = os.path.dirname(os.path.dirname(os.path.abspath(__file__)))
p = os.path.join(ROOT, "known_findings.json")
kf = json.load(open(p))
have = {(e["property"], e["id"]) for e in kf["findings"]}
for f in sorted(glob.glob(os.path.join(ROOT, "findings", "*.json"))):
    for e in json.load(open(f)).get("findings", []):
        if (e["property"], e["id"]) not in have:
            kf["findings"].append(e)
            have.add((e["property"], e["id"]))
        else:  # refresh the wording from the fragment; a recorded "fixed ..." status is kept
            for old in kf["findings"]:
                if (old["property"], old["id"]) == (e["property"], e["id"]):
                    st = old.get("status", "")
                    old.update(e)
                    if str(st).startswith("fixed"):
                        old["status"] = st
kf["findings"].sort(key=lambda e: (e["property"], e["id"]))
json.dump(kf, open(p, "w"), indent=1)
print(len(kf["findings"]), "findings")

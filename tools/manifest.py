#!/usr/bin/env python3
"""Regenerate MANIFEST.json from checks/*.py (SPEC/MANIFEST dicts) and tools/not_applicable.json."""
import importlib
import json
import os
import sys

ROOT = os.path.dirname(os.path.dirname(os.path.abspath(__file__)))
sys.path.insert(0, ROOT)
sys.path.insert(0, os.path.join(ROOT, "lib"))

props = [json.loads(l)["id"] for l in open(os.path.join(ROOT, "properties.jsonl"))]
checks = []
claimed = set()
integrated = set(json.load(open(os.path.join(ROOT, "tools", "claimed.json"))))
for pid in props:
    if pid not in integrated:
        continue
    if not os.path.exists(os.path.join(ROOT, "checks", f"{pid}.py")):
        continue
    mod = importlib.import_module(f"checks.{pid}")
    m = getattr(mod, "MANIFEST", None)
    if not m:
        continue
    claimed.add(pid)
    checks.append({
        "property_id": pid,
        "quick_cmd": f"./vcheck check {pid} --tier quick",
        "thorough_cmd": f"./vcheck check {pid} --tier thorough",
        "evidence_file": f"/verif/evidence/{pid}.json",
        "replay_cmd_template": f"./vcheck check {pid} --replay {{path}}",
        "engine": "coq+harness",
        "level_claimed": {"category": m["category"], "text": m["text"], "design_ref": m.get("design_ref", f"DESIGN.md §6 {pid}")},
        "level_note": m["note"],
        "technique": m["technique"],
    })
na = json.load(open(os.path.join(ROOT, "tools", "not_applicable.json")))
not_applicable = [{"property_id": p, "reason": na.get(p, "no sound check built yet in this development; see DESIGN.md §12")} for p in props if p not in claimed]
manifest = {
    "version": 1,
    "setup_cmd": "./vcheck setup",
    "hooks": {
        "guard": "async_graphql_verif",
        "enable": "RUSTFLAGS=\"--cfg async_graphql_verif\" (set in /verif/harness/.cargo/config.toml for every harness build)",
        "baseline_off_cmd": "cd /repo && cargo test --workspace --no-fail-fast --offline",
        "source_commits": json.load(open(os.path.join(ROOT, "tools", "hook_commits.json"))),
        "add_only": True,
    },
    "engines": [
        {"name": "coq", "path": "coq/", "serves_properties": sorted(claimed), "kind_free_text": "Coq 8.16.1 development: models (theories/), generated tables (gen/), property theorems (props/)"},
        {"name": "facts", "path": "tools/facts.py", "serves_properties": sorted(claimed), "kind_free_text": "translator: table-shaped Rust/pest/jinja source -> Gallina, run on every check"},
        {"name": "harness", "path": "harness/", "serves_properties": sorted(claimed), "kind_free_text": "Rust crate built against /repo's working tree; runs the implementation on generated cases and prints them as Gallina terms"},
        {"name": "vcheck", "path": "vcheck", "serves_properties": sorted(claimed), "kind_free_text": "orchestration: proof obligations, correspondence (coqc vm_compute on the harness cases), verdicts, evidence"},
    ],
    "checks": checks,
    "not_applicable": not_applicable,
    "notes": "Every check: facts -> coq proof obligations (Print Assumptions allowlist, forbidden-token grep) -> harness on /repo -> model evaluated in Coq on the same cases -> verdict. known_findings.json lists recorded genuine defects.",
}
json.dump(manifest, open(os.path.join(ROOT, "MANIFEST.json"), "w"), indent=1)
print(f"MANIFEST.json: {len(checks)} checks, {len(not_applicable)} not claimed")
